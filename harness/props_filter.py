"""C17: filter algebra and range syntax."""
from __future__ import annotations

import json
import random

from build import build_filter, filt_sx
from common import CORPUS, NS_DAY, NS_HOUR, NS_S, run_model, use_repo_sources
from framework import Finding, Run
from gen_sched import gen_filter
from oracle_prod import filt_allow
from tz import SHAPE_ZONES, set_tz, zone_line, zones

use_repo_sources()

EN_DAYS = ['Monday', 'Tuesday', 'Wednesday', 'Thursday', 'Friday', 'Saturday', 'Sunday']
DE_DAYS = ['Montag', 'Dienstag', 'Mittwoch', 'Donnerstag', 'Freitag', 'Samstag', 'Sonntag']
EN_MONTHS = ['January', 'February', 'March', 'April', 'May', 'June', 'July', 'August', 'September', 'October',
             'November', 'December']
DE_MONTHS = ['Januar', 'Februar', 'März', 'April', 'Mai', 'Juni', 'Juli', 'August', 'September', 'Oktober',
             'November', 'Dezember']


def names_for(kind: str) -> dict[str, int]:
    """the reference denotation of names: English and German, full and abbreviated (3 / 2 letters)"""
    out: dict[str, int] = {}
    if kind == 'weekdays':
        for i, (e, g) in enumerate(zip(EN_DAYS, DE_DAYS), 1):
            for n in (e, e[:3], g, g[:2]):
                out[n.lower()] = i
    elif kind == 'months':
        for i, (e, g) in enumerate(zip(EN_MONTHS, DE_MONTHS), 1):
            for n in (e, e[:3], g, g[:3]):
                out[n.lower()] = i
        out['mrz'] = 3
    return out


def ref_parse(kind: str, item) -> list[int] | None:
    """independent reference: the 'obvious set' an argument denotes, None = must be rejected"""
    lo, hi = {'weekdays': (1, 7), 'days': (1, 31), 'months': (1, 12)}[kind]
    names = names_for(kind)

    def single(x) -> int | None:
        if isinstance(x, bool):
            x = int(x)
        if isinstance(x, int):
            v = x
        else:
            t = x.strip()
            if t.isascii() and t.isdigit():
                v = int(t)
            elif t.lower() in names:
                v = names[t.lower()]
            else:
                return None
        return v if lo <= v <= hi else None

    def one(x) -> set[int] | None:
        if isinstance(x, int):
            v = single(x)
            return None if v is None else {v}
        if isinstance(x, str):
            out: set[int] = set()
            for part in x.split(','):
                if '-' in part:
                    a, b = part.split('-', 1)
                    a, b = single(a), single(b)
                    if a is None or b is None:
                        return None
                    out |= set(range(a, b + 1)) if a <= b else set(range(a, hi + 1)) | set(range(1, b + 1))
                else:
                    v = single(part)
                    if v is None:
                        return None
                    out.add(v)
            return out
        if not x:
            return None
        out = set()
        for y in x:
            r = one(y)
            if r is None:
                return None
            out |= r
        return out
    r = one(item)
    return None if r is None else sorted(r)


def item_sx(x) -> str:
    if isinstance(x, bool):
        return f'(int {int(x)})'
    if isinstance(x, int):
        return f'(int {x})'
    if isinstance(x, str):
        return f'(str {x.encode().hex() or "20"})' if x else '(str 20)'
    return '(list ' + ' '.join(item_sx(y) for y in x) + ')'


def gen_spelling(rnd: random.Random, kind: str):
    lo, hi = {'weekdays': (1, 7), 'days': (1, 31), 'months': (1, 12)}[kind]
    names = list(names_for(kind))

    def val() -> str:
        r = rnd.random()
        if names and r < 0.55:
            n = rnd.choice(names)
            return rnd.choice([n, n.capitalize(), n.upper() if n.isascii() else n.capitalize(), f' {n} '])
        if r < 0.9:
            return str(rnd.randint(lo, hi))
        return rnd.choice([str(hi + 1), '0', 'x', '', ' ', 'Mon-', 'foo', '1.5', str(-1), '007', '٣'[:0] + '3 '])

    def part() -> str:
        if rnd.random() < 0.45:
            return f'{val()}{rnd.choice(["-", " - ", "-"])}{val()}'
        return val()
    r = rnd.random()
    if r < 0.15:
        return rnd.choice([rnd.randint(lo - 1, hi + 1), True])
    if r < 0.75:
        return rnd.choice([',', ', ', ' ,']).join(part() for _ in range(rnd.randint(1, 3)))
    if r < 0.8:
        return rnd.choice([[], '', ',', '-', '--', 'Mon--Fri', '1,,2'])
    return [gen_spelling(rnd, kind) for _ in range(rnd.randint(1, 3))]


class FilterProp:
    component = 'filter'
    pid = 'C17'
    module = 'EaModel.Properties.C17'
    assumptions = [
        'the string front end (split, strip, isdigit, lower) is executable model code validated by this run, the theorems '
        'are about ranges, single values and the name tables read from the imported source; ASCII digits only',
        'zone database as input (see C05)',
    ]

    def __init__(self, theorems: list[str]) -> None:
        self.theorems = theorems

    def run_T(self, run: Run) -> None:
        from eascheduler.builder.helper import get_days, get_months, get_weekdays
        from vclock import instant_of_ns
        fn = {'weekdays': get_weekdays, 'days': get_days, 'months': get_months}
        rnd = random.Random(run.seed * 1_000_003 + 17)
        n_parse = {'quick': 4000, 'thorough': 200_000}[run.tier]
        n_filter = {'quick': 1200, 'thorough': 30000}[run.tier]
        run.rule = ('argument spellings (English/German names full/abbreviated in any case, numbers, comma lists, ranges incl. '
                    'wrap-around, nested iterables, malformed values) for weekdays/days/months; and filter expressions (nesting <= 3) '
                    'on instants of a 28-year grid in zones east and west of UTC; distinct = distinct (kind, spelling) or '
                    '(zone, filter, instant)')
        # ---- 1. range syntax
        lines, impl, cases = [], [], []
        # every name of the reference tables, alone and in wrap-around ranges, first
        fixed = []
        for kind in ('weekdays', 'months'):
            nm = list(names_for(kind))
            fixed += [(kind, n) for n in nm] + [(kind, n.upper() if n.isascii() else n) for n in nm]
            fixed += [(kind, f'{a}-{b}') for a in nm[::5] for b in nm[::7]]
        fixed += [('weekdays', 'Fr-Mo'), ('months', 'Oct-Feb'), ('days', '30-3'), ('days', '1-5,10-15'), ('days', '1,5,7'),
                  ('weekdays', 'Mon-Fri'), ('weekdays', 'Sun-Mon'), ('weekdays', 'Mo-Mi'), ('weekdays', 'Fr-So'),
                  ('months', 'Jan, March'), ('months', '1-3,10-12'), ('weekdays', ()), ('days', 0), ('days', 32)]
        gen = [(k, gen_spelling(rnd, k)) for k in rnd.choices(['weekdays', 'days', 'months'], k=n_parse)]
        for kind, item in fixed + gen:
            try:
                r = fn[kind](item)
                a = 'ok' + ''.join(f' {int(x)}' for x in r)
            except (ValueError, TypeError) as e:
                a = 'err ' + type(e).__name__
            except Exception as e:  # noqa: BLE001
                a = 'err ' + type(e).__name__
            cases.append((kind, item))
            impl.append(a)
            lines.append(f'parse {kind} {item_sx([item] if not isinstance(item, (list, tuple)) else [list(item)])}')
            want = ref_parse(kind, item)
            got = [int(x) for x in a.split()[1:]] if a.startswith('ok') else None
            run.evaluations += 1
            run.nontrivial.add((kind, repr(item)))
            st = run.stats
            st['parse_' + ('ok' if got is not None else 'rejected')] = st.get('parse_' + ('ok' if got is not None else 'rejected'), 0) + 1
            if want != got:
                run.findings.append(Finding('oracle', f'{kind}({item!r}) gives {a}, but the spelling denotes {want}',
                                            {'component': 'filter', 'parse': [kind, item]}))
        model = [b[0] if b else '' for b in run_model(lines)]
        run.traces_validated += 1
        for (kind, item), a, b in zip(cases, impl, model):
            if a.split()[:1] != b.split()[:1] or (a.startswith('ok') and a != b):
                run.findings.append(Finding('correspondence', f'parser model and code differ for {kind}({item!r}): code {a} / model {b}',
                                            {'component': 'filter', 'parse': [kind, item], 'broken': 'correspondence filter/parse'}))
                break
        run.sample({'spellings': [(k, i, a) for (k, i), a in list(zip(cases, impl))[-4:]]})
        # ---- 2. filter algebra on a 28-year grid, in zones east and west of UTC
        zs = SHAPE_ZONES if run.tier == 'quick' else zones()
        for _ in range(n_filter):
            tzname = rnd.choice(zs)
            set_tz(tzname)
            f = gen_filter(rnd, empty_any=True)
            fo = build_filter(f)
            base = rnd.randrange(946_684_800, 946_684_800 + 28 * 365 * 86400)
            pts = [(base + k * rnd.choice([3600, 86400, 7 * 86400 + 1800, 3 * 3600 + 59])) * NS_S + rnd.choice([0, 0, 999_999_999])
                   for k in range(12)]
            if f[0] == 'time':
                # exactly at the bounds
                for b in (f[1], f[2]):
                    if b is not None:
                        day = (base // 86400) * NS_DAY
                        pts += [day + b - 12 * NS_HOUR + d for d in (-1, 0, 1)]
            ls = [zone_line(tzname)]
            got = []
            for u in pts:
                got.append('true' if fo._filter.allow(instant_of_ns(u).to_system_tz()) else 'false')
                ls.append(f'allow {filt_sx(f)} {u}')
                want = filt_allow(tzname, f, u)
                run.evaluations += 1
                run.nontrivial.add((tzname, filt_sx(f), u))
                if want != (got[-1] == 'true'):
                    run.findings.append(Finding('oracle', f'filter {filt_sx(f)} in zone {tzname} at {u}: allow() = {got[-1]}, '
                                                          f'reference evaluation on the zoneinfo-local datetime = {want}',
                                                {'component': 'filter', 'tz': tzname, 'filter': f, 'instant': u}))
            mod = [b[0] if b else '' for b in run_model(ls)[1:]]
            run.traces_validated += 1
            if mod != got:
                i = next(i for i, (a, b) in enumerate(zip(got, mod)) if a != b)
                run.findings.append(Finding('correspondence', f'filter model and code differ: {filt_sx(f)} zone {tzname} at {pts[i]}: '
                                                              f'code {got[i]} / model {mod[i]}',
                                            {'component': 'filter', 'tz': tzname, 'filter': f, 'instant': pts[i],
                                             'broken': 'correspondence filter/allow'}))
        run.sample({'filter': filt_sx(f), 'zone': tzname, 'answers': got[:6]})

    def replay(self, run: Run, obj: dict) -> None:
        self.run_T(run)
