"""Adapter: the real task managers on a real asyncio loop with instrumented coroutines."""
from __future__ import annotations

import asyncio
import gc
import inspect
import weakref

from common import use_repo_sources

use_repo_sources()


# the de-duplication keys the line protocol calls 1, 2, 3, …
DEDUP_KEYS = {1: 0, 2: '', 3: ('k', 3), 4: ()}


class Boom(Exception):
    pass


class TmImpl:
    def __init__(self, kind: str, args: list[str]) -> None:
        self.kind, self.args = kind, args

    def _make(self):
        from eascheduler import task_managers as tm
        if self.kind == 'sequential':
            return tm.SequentialTaskManager()
        if self.kind == 'limseq':
            return tm.LimitingSequentialTaskManager(int(self.args[0]), self.args[1])
        if self.kind == 'dedup':
            return tm.SequentialDeduplicatingTaskManager()
        if self.kind == 'parallel':
            return tm.ParallelTaskManager()
        if self.kind == 'limpar':
            return tm.LimitingParallelTaskManager(int(self.args[0]), self.args[1])
        raise ValueError(self.kind)

    async def _run(self, lines: list[str]) -> list[list[str]]:
        loop = asyncio.get_running_loop()
        loop.set_exception_handler(lambda _l, _c: None)       # "Task exception was never retrieved" etc.
        mgr = self._make()
        out: list[str] = []
        coros: dict[int, object] = {}            # every submitted coroutine object (strong: we inspect its state)
        entered: set[int] = set()
        ended: set[int] = set()
        lost_seen: set[int] = set()
        closed_seen: set[int] = set()
        # the futures the coroutines wait for are only weakly held here: a manager that does not keep its tasks
        # alive loses them at the next garbage collection
        futs: weakref.WeakValueDictionary = weakref.WeakValueDictionary()
        orders: dict[int, dict] = {}
        listener_ev: dict[int, asyncio.Event] = {}

        par = self.kind in ('parallel', 'limpar')
        sync_closed: set[int] = set()

        def do_submit(c: int, key: int) -> None:
            co = body(c)
            # parallel managers: the harness must not keep the task alive through the coroutine object
            coros[c] = weakref.ref(co) if par else (lambda co=co: co)
            if self.kind == 'dedup':
                # any hashable is a legal key, falsy ones included (0, '', an empty tuple)
                mgr.create_task(co, DEDUP_KEYS.get(key, key), name=f'c{c}')
            else:
                mgr.create_task(co, name=f'c{c}')
            if par and inspect.getcoroutinestate(co) == 'CORO_CLOSED':
                sync_closed.add(c)          # policy skip closed it at once

        async def listener(ev: asyncio.Event, subs) -> None:
            await ev.wait()
            for c2, k2 in subs:
                do_submit(c2, k2)

        async def body(c: int) -> None:
            entered.add(c)
            out.append(f'enter {c}')
            fut = loop.create_future()
            futs[c] = fut
            try:
                await fut
            except asyncio.CancelledError:
                ended.add(c)
                out.append(f'cancelled {c}')
                raise
            o = orders.get(c, {})
            for c2, k2 in o.get('inside', []):
                do_submit(c2, k2)
            if o.get('listener'):
                listener_ev[c].set()
            ended.add(c)
            if o.get('fail'):
                out.append(f'failed {c}')
                raise Boom()
            out.append(f'exit {c}')

        async def settle() -> None:
            for _ in range(200):
                await asyncio.sleep(0)
                if len(loop._ready) == 0:
                    await asyncio.sleep(0)
                    if len(loop._ready) == 0:
                        break
            gc.collect()

        def find_task(c: int):
            for t in asyncio.all_tasks():
                if t.get_name() == f'c{c}':
                    return t
            return None

        def pairs(s: str):
            return [] if s == '-' else [tuple(int(x) for x in p.split(':')) for p in s.split(',')]

        blocks = []
        keep = []
        for line in lines:
            tok = line.split()
            out.clear()
            notask = False
            if tok[1] == 'submit':
                do_submit(int(tok[2]), int(tok[3]))
            elif tok[1] == 'complete':
                c = int(tok[2])
                fut = futs.get(c)
                if fut is None or fut.done() or c not in entered:
                    notask = c not in entered or find_task(c) is None
                    if not notask:
                        out.append(f'lost {c}')
                else:
                    o = {'fail': tok[3] != '0', 'inside': pairs(tok[4]), 'listener': pairs(tok[5])}
                    orders[c] = o
                    if o['listener']:
                        listener_ev[c] = asyncio.Event()
                        keep.append(asyncio.ensure_future(listener(listener_ev[c], o['listener'])))
                        await asyncio.sleep(0)       # the listener is waiting before the task is resumed
                    fut.set_result(None)
            elif tok[1] == 'cancel':
                t = find_task(int(tok[2]))
                if t is None:
                    notask = True
                else:
                    t.cancel()
                    del t
            await settle()
            if notask:
                blocks.append(['notask'])
                continue
            def is_closed(c: int) -> bool:
                co = coros[c]()
                return c in sync_closed or co is None or inspect.getcoroutinestate(co) == 'CORO_CLOSED'
            newly = sorted(c for c in coros if c not in entered and c not in closed_seen and is_closed(c))
            if par:
                for c in sorted(entered - ended):
                    if coros[c]() is None and c not in lost_seen:
                        lost_seen.add(c)
                        out.append(f'lost {c}')
            closed_seen.update(newly)
            run = getattr(mgr, 'task', None) is not None
            q = len(getattr(mgr, 'queue', ()))
            tr = len(getattr(mgr, 'tasks', ()))
            blocks.append([*out, *[f'closed {c}' for c in newly], f'state run={int(run)} queue={q} tracked={tr} ready=0'])
        for t in asyncio.all_tasks():
            if t is not asyncio.current_task():
                t.cancel()
        await asyncio.sleep(0)
        return blocks

    def run(self, lines: list[str]) -> list[list[str]]:
        return asyncio.run(self._run(lines))
