"""Canonical trace handling: grouping of `yield` blocks, per-property projections, diffing."""
from __future__ import annotations


class Group:
    """one public operation together with the `yield`s that directly follow it"""
    __slots__ = ('ops', 'ret', 'execs', 'cbs', 'excs', 'fatal', 'state', 'now', 'first_line')

    def __init__(self, first_line: int) -> None:
        self.ops: list[str] = []
        self.ret = ''
        self.execs: list[tuple[int, int]] = []
        self.cbs: list[str] = []
        self.excs: list[str] = []
        self.fatal: list[str] = []
        self.state: dict[str, object] = {}
        self.now = 0
        self.first_line = first_line

    def add_block(self, op: str, block: list[str], *, first: bool) -> None:
        self.ops.append(op)
        st: dict[int, tuple[str, str]] = {}
        last: dict[int, str] = {}
        store: list[str] = []
        for ln in block:
            t = ln.split()
            if t[0] == 'ret':
                if first:
                    self.ret = 'ok' if t[1] == 'ok' else 'err ' + t[2]
            elif t[0] == 'exec':
                self.execs.append((int(t[1]), int(t[2])))
            elif t[0] == 'cb':
                self.cbs.append(ln)
            elif t[0] == 'exc':
                self.excs.append(t[1])
            elif t[0] == 'fatal':
                self.fatal.append(t[1])
            elif t[0] == 'st':
                st[int(t[1])] = (t[2], t[3])
                last[int(t[1])] = t[4] if len(t) > 4 else '-' 
            elif t[0] == 'store':
                store = t[1:]
            elif t[0] == 'now':
                self.now = int(t[1])
        self.state = {'jobs': st, 'store': store, 'last': last}

    def canon(self, *, err_class: bool = False) -> tuple:
        ret = self.ret if err_class or self.ret == 'ok' else 'err'
        return (ret, tuple(self.execs), tuple(self.cbs), tuple(sorted(self.excs)), tuple(self.fatal),
                tuple(sorted(self.state['jobs'].items())), tuple(self.state['store']), self.now,
                tuple(sorted(self.state.get('last', {}).items())))


def group_blocks(lines: list[str], blocks: list[list[str]]) -> list[Group]:
    groups: list[Group] = []
    cur: Group | None = None
    for i, (ln, blk) in enumerate(zip(lines, blocks)):
        op = ln[3:] if ln.startswith('op ') else ln[4:] if ln.startswith('op! ') else ln
        if op == 'yield' and cur is not None:
            cur.add_block(op, blk, first=False)
            continue
        cur = Group(i)
        cur.add_block(op, blk, first=True)
        groups.append(cur)
    return groups


def first_diff(a: list[Group], b: list[Group], key=lambda g: g.canon()):
    for i, (x, y) in enumerate(zip(a, b)):
        if key(x) != key(y):
            return i
    if len(a) != len(b):
        return min(len(a), len(b))
    return None
