"""Check framework: proof obligations (P), known findings (K), correspondence (T), failing-input search (S),
evidence and the VIOLATION / KNOWN-FINDING line protocol."""
from __future__ import annotations

import json
import os
import re
import subprocess
import sys
import time
from pathlib import Path

from common import ALLOWED_AXIOMS, EVIDENCE, LEAN, REPLAY, VERIF, lake_build, seed_from_env, write_json

TRUSTED_BASE = [
    'Lean 4.33 kernel (thorough tier: re-checked with leanchecker)',
    'axioms: at most propext, Classical.choice, Quot.sound (audited per theorem with #print axioms on every run)',
    'hand-written Lean model tied to /repo by the correspondence check of this run (harness/*.py)',
    'whenever 0.7.3, CPython 3.12, asyncio, the OS time zone database and astral are modelled, not verified',
]

FORBIDDEN = re.compile(r'\b(sorry|admit|native_decide|bv_decide|implemented_by|unsafe)\b|^\s*axiom\s|maxHeartbeats\s+0')


def strip_comments(src: str) -> str:
    src = re.sub(r'/-.*?-/', '', src, flags=re.S)
    return re.sub(r'--.*', '', src)


def grep_forbidden() -> list[str]:
    hits = []
    for f in sorted((LEAN / 'EaModel').rglob('*.lean')):
        for i, ln in enumerate(strip_comments(f.read_text()).split('\n'), 1):
            if FORBIDDEN.search(ln):
                hits.append(f'{f.relative_to(LEAN)}:{i}: {ln.strip()[:80]}')
    return hits


def audit(pid: str, module: str, theorems: list[str]) -> dict:
    """build the property module and print the axioms of every listed theorem"""
    out = {'module': module, 'built': False, 'theorems': {}, 'log': ''}
    ok, log = lake_build([module])
    out['built'] = ok
    if not ok:
        out['log'] = log[-3000:]
        return out
    aud = LEAN / '.lake' / f'audit_{pid}.lean'
    aud.write_text(f'import {module}\n' + ''.join(f'#print axioms {t}\n' for t in theorems))
    p = subprocess.run(['lake', 'env', 'lean', str(aud)], cwd=LEAN, capture_output=True, text=True, timeout=900)
    text = p.stdout + p.stderr
    out['log'] = text[-3000:] if p.returncode else ''
    for t in theorems:
        m = re.search(r"'" + re.escape(t) + r"' depends on axioms: \[([^\]]*)\]", text)
        if m:
            ax = {a.strip() for a in m.group(1).replace('\n', ' ').split(',') if a.strip()}
            out['theorems'][t] = {'axioms': sorted(ax), 'ok': ax <= ALLOWED_AXIOMS}
        elif re.search(r"'" + re.escape(t) + r"' does not depend on any axioms", text):
            out['theorems'][t] = {'axioms': [], 'ok': True}
        else:
            out['theorems'][t] = {'axioms': None, 'ok': False}
    return out


def leanchecker(module: str) -> tuple[bool, str]:
    p = subprocess.run(['lake', 'env', 'leanchecker', module], cwd=LEAN, capture_output=True, text=True, timeout=3600)
    return p.returncode == 0, (p.stdout + p.stderr)[-1500:]


class Finding:
    def __init__(self, kind: str, desc: str, replay: dict, signature: str | None = None) -> None:
        self.kind = kind            # 'oracle' (failing input on the real code) | 'correspondence' | 'proof'
        self.desc = desc
        self.replay = replay
        self.signature = signature  # id of a known finding this matches, if any


class Run:
    """collects what one check run did"""

    def __init__(self, pid: str, tier: str, seed: int) -> None:
        self.pid, self.tier, self.seed = pid, tier, seed
        self.t0 = time.time()
        self.findings: list[Finding] = []
        self.known_hits: dict[str, str] = {}
        self.evaluations = 0
        self.nontrivial: set = set()
        self.samples: list = []
        self.traces_validated = 0
        self.stats: dict = {}
        self.rule = ''
        self.assumptions: list[str] = []
        self.notes: list[str] = []

    def sample(self, x) -> None:
        if len(self.samples) < 3:
            self.samples.append(x)


def load_known() -> dict:
    p = VERIF / 'known_findings.json'
    if not p.exists():
        return {'findings': [], 'fixed': []}
    return json.loads(p.read_text())


def finish(run: Run, aud: dict, forbidden: list[str], prop) -> int:
    """print the verdict lines, write evidence, return the exit status"""
    pid = run.pid
    known = {f['id']: f for f in load_known().get('findings', []) if f['property'] == pid}
    theorems = aud['theorems']
    obligations = len(prop.theorems)
    discharged = sum(1 for t in prop.theorems if theorems.get(t, {}).get('ok')) if aud['built'] else 0
    proof_ok = aud['built'] and discharged == obligations and not forbidden

    real: list[Finding] = []
    for f in run.findings:
        if f.signature is not None and f.signature in known:
            run.known_hits.setdefault(f.signature, f.desc)
        else:
            real.append(f)
    if not proof_ok:
        why = 'build failed' if not aud['built'] else 'forbidden construct: ' + '; '.join(forbidden[:3]) if forbidden else \
            'axiom audit failed for ' + ', '.join(t for t in prop.theorems if not theorems.get(t, {}).get('ok'))
        real.append(Finding('proof', f'proof obligations of {pid} no longer check ({why})',
                            {'broken': 'proof', 'module': aud['module'], 'log': aud.get('log', ''), 'why': why}))

    for kid, desc in sorted(run.known_hits.items()):
        print(f'KNOWN-FINDING: property={pid} {kid}: {known[kid]["what"]} [{desc[:160]}]')
    for kid, k in known.items():
        if kid not in run.known_hits:
            run.notes.append(f'known finding {kid} was not re-confirmed in this run')

    status = 0
    if real:
        status = 1
        REPLAY.mkdir(exist_ok=True)
        oracle = [f for f in real if f.kind == 'oracle']
        chosen = oracle[0] if oracle else real[0]
        path = REPLAY / f'{pid}_{run.tier}_{run.seed}.json'
        write_json(path, {'property': pid, 'kind': chosen.kind, 'what': chosen.desc, 'replay': chosen.replay,
                          'all': [{'kind': f.kind, 'what': f.desc} for f in real[:20]]})
        tail = '' if oracle else ' no-failing-input-found'
        print(f'VIOLATION property={pid} replay={path}{tail}')
        for f in real[:5]:
            print(f'  [{f.kind}] {f.desc[:300]}')

    cov = {
        'obligations': obligations,
        'discharged': discharged,
        'checker_cmd': f'cd lean && lake build {aud["module"]} && lake env lean .lake/audit_{pid}.lean'
                       + (' && lake env leanchecker ' + aud['module'] if run.tier == 'thorough' else ''),
        'trusted_base': TRUSTED_BASE,
        'theorems': {t: theorems.get(t, {}) for t in prop.theorems},
        'evaluations': run.evaluations,
        'distinct_nontrivial': len(run.nontrivial),
        'rule': run.rule,
        'samples': run.samples or ['(no generated case in this run)'],
        'traces_validated_against_impl': run.traces_validated,
        'known_findings_reconfirmed': sorted(run.known_hits),
        'stats': run.stats,
        'notes': run.notes,
    }
    ev = {'property_id': pid, 'tier': run.tier, 'seed': run.seed, 'level': 'proof', 'coverage': cov,
          'assumptions': run.assumptions or prop.assumptions, 'wall_s': round(time.time() - run.t0, 2),
          'violations': len(real)}
    write_json(EVIDENCE / f'{pid}.json', ev)
    print(f'{pid} {run.tier} seed={run.seed}: theorems {discharged}/{obligations}, cases {run.evaluations} '
          f'(distinct non-trivial {len(run.nontrivial)}), validated traces {run.traces_validated}, '
          f'violations {len(real)}, known findings {len(run.known_hits)}, {ev["wall_s"]} s')
    return status
