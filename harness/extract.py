"""Translator part: constants and finite tables are regenerated from the imported /repo source on every run
into lean/EaModel/Generated.lean; `EaModel/GenCheck/*.lean` proves that they are the ones the model uses."""
from __future__ import annotations

import inspect
import re

from common import LEAN, use_repo_sources

use_repo_sources()


def _loop_bound() -> int:
    from eascheduler.errors import InfiniteLoopDetectedError
    from eascheduler.producers.base import not_infinite_loop
    n = 0
    try:
        for _ in not_infinite_loop():
            n += 1
            if n > 10_000_000:
                break
    except InfiniteLoopDetectedError:
        pass
    return n


def _past_tolerance_ns() -> int:
    """largest d (ns) such that a run time `now - d` is accepted by JobBase.set_next_run"""
    import whenever
    from whenever import Instant, TimeDelta
    from eascheduler.errors.errors import ScheduledRunInThePastError
    from eascheduler.jobs.base import JobBase

    class _E:
        def execute(self):
            pass
    now = Instant.from_utc(2024, 1, 1)
    whenever._patch_time_frozen(now)
    try:
        def ok(d):
            j = JobBase(_E())
            try:
                j.set_next_run(now - TimeDelta(nanoseconds=d))
                return True
            except ScheduledRunInThePastError:
                return False
        lo, hi = 0, 10**12
        if not ok(lo):
            return -1
        while lo < hi:
            mid = (lo + hi + 1) // 2
            if ok(mid):
                lo = mid
            else:
                hi = mid - 1
        return lo
    finally:
        whenever._unpatch_time()


def _source_int(obj, pattern: str, default: int = -1) -> int:
    try:
        m = re.search(pattern, inspect.getsource(obj))
        return int(m.group(1).replace('_', '')) if m else default
    except (OSError, TypeError):
        return default


def _jitter_eps_ns() -> int:
    from eascheduler.producers import prod_operation as po
    try:
        m = re.search(r'lowest - low \+ ([0-9.eE+-]+)', inspect.getsource(po.JitterProducerOperation.apply_operation))
        return round(float(m.group(1)) * 1e9) if m else -1
    except (OSError, TypeError):
        return -1


def _names():
    from eascheduler.const import DAY_NAMES, MONTH_NAMES
    return dict(DAY_NAMES), dict(MONTH_NAMES)


def _dst_orders():
    from eascheduler.helpers import dst_param
    fn = getattr(dst_param, '_iter_date', None)
    if fn is None:
        import importlib
        importlib.reload(dst_param)
        fn = getattr(dst_param, '_iter_date', None)
    src = inspect.getsource(fn) if fn else ''
    mo = re.search(r'month_order = \(([^)]*)\)', src)
    ho = re.search(r'hour_order = \(([^)]*)\)', src)
    as_list = lambda m: [int(x) for x in m.group(1).split(',') if x.strip()] if m else []  # noqa: E731
    return as_list(mo), as_list(ho)


# values of the model, used ONLY when a constant can no longer be read from the source text (the pattern below does not
# match any more, e.g. after a variable was renamed): a harmless rewrite must not break a proof obligation. A constant
# whose *value* changed is a changed behaviour and is seen by the correspondence run in any case.
MODEL_DEFAULTS = {'jitterEpsNs': 100_000, 'afterTries': 121, 'sunTries': 366, 'sunCacheMax': 64, 'sunCacheEvict': 10,
                  'dstMonthOrder': [3, 4, 11, 9, 10], 'dstHourOrder': [2, 3, 0, 1]}
FALLBACKS: list[str] = []


def _or_default(name: str, value):
    if value in (-1, 0, [], None):
        FALLBACKS.append(name)
        return MODEL_DEFAULTS[name]
    return value


def lean_str(s: str) -> str:
    return '"' + s.replace('\\', '\\\\').replace('"', '\\"') + '"'


def lean_chars(s: str) -> str:
    return '[' + ', '.join("'" + (c if c not in "'\\" else '\\' + c) + "'" for c in s) + ']'


def generate() -> str:
    from eascheduler.helpers import time_replace
    from eascheduler.producers import prod_sun
    days, months = _names()
    mo, ho = _dst_orders()
    sun_src = ''
    try:
        sun_src = inspect.getsource(prod_sun.SunProducer._get_next_sun)
    except (OSError, TypeError):
        pass
    tries = re.search(r'tries = (\d+)', sun_src)
    cache_max = re.search(r'len\(sun_cache\) >= (\d+)', sun_src)
    cache_evict = re.search(r'for _ in range\((\d+)\):\s*\n\s*sun_cache\.popitem', sun_src)
    FALLBACKS.clear()
    mo = _or_default('dstMonthOrder', mo)
    ho = _or_default('dstHourOrder', ho)
    jitter_eps = _or_default('jitterEpsNs', _jitter_eps_ns())
    after_tries = _or_default('afterTries', _source_int(time_replace.find_time_after_dst_switch, r"range\((\d+)\)"))
    sun_tries = _or_default('sunTries', int(tries.group(1)) if tries else 0)
    sun_max = _or_default('sunCacheMax', int(cache_max.group(1)) if cache_max else 0)
    sun_evict = _or_default('sunCacheEvict', int(cache_evict.group(1)) if cache_evict else 0)
    out = ['/-! GENERATED on every run by harness/extract.py from the imported /repo source. Do not edit. -/',
           *([f'-- not found in the source text any more, value of the model used: {", ".join(FALLBACKS)}'] if FALLBACKS else []),
           'namespace Ea.Gen', '',
           f'def loopBound : Nat := {_loop_bound()}',
           f'def pastToleranceNs : Int := {_past_tolerance_ns()}',
           f'def jitterEpsNs : Int := {jitter_eps}',
           f'def afterTries : Nat := {after_tries}',
           f'def sunTries : Nat := {sun_tries}',
           f'def sunCacheMax : Nat := {sun_max}',
           f'def sunCacheEvict : Nat := {sun_evict}',
           'def dayNames : List (String × Nat) := [' + ', '.join(f'({lean_str(k)}, {v})' for k, v in days.items()) + ']',
           'def monthNames : List (String × Nat) := [' + ', '.join(f'({lean_str(k)}, {v})' for k, v in months.items()) + ']',
           '/-- the same tables as lists of characters (kernel-friendly) -/',
           'def dayNamesC : List (List Char × Nat) := [' + ', '.join(f'({lean_chars(k)}, {v})' for k, v in days.items()) + ']',
           'def monthNamesC : List (List Char × Nat) := [' + ', '.join(f'({lean_chars(k)}, {v})' for k, v in months.items()) + ']',
           'def dstMonthOrder : List Nat := [' + ', '.join(map(str, mo)) + ']',
           'def dstHourOrder : List Nat := [' + ', '.join(map(str, ho)) + ']',
           '', 'end Ea.Gen', '']
    return '\n'.join(out)


def write_generated() -> bool:
    path = LEAN / 'EaModel' / 'Generated.lean'
    text = generate()
    if path.exists() and path.read_text() == text:
        return False
    path.write_text(text)
    return True


if __name__ == '__main__':
    print(generate())
