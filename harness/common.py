"""Shared helpers of the correspondence harness: paths, Lean build / driver, scripted random source."""
from __future__ import annotations

import json
import os
import re
import subprocess
import sys
import time
from pathlib import Path

VERIF = Path(__file__).resolve().parent.parent
LEAN = VERIF / 'lean'
REPO = Path(os.environ.get('VERIF_REPO', '/repo'))
DRIVER = LEAN / '.lake' / 'build' / 'bin' / 'eadriver'
EVIDENCE = VERIF / 'evidence'
REPLAY = VERIF / 'replay'
CORPUS = VERIF / 'corpus'

NS_US = 1_000
NS_MS = 1_000_000
NS_S = 1_000_000_000
NS_MIN = 60 * NS_S
NS_HOUR = 3600 * NS_S
NS_DAY = 86400 * NS_S

ALLOWED_AXIOMS = {'propext', 'Classical.choice', 'Quot.sound'}


def use_repo_sources() -> None:
    """make `import eascheduler` resolve to the working tree of REPO (it is an editable install of /repo;
    a scratch copy is selected with VERIF_REPO)"""
    src = str(REPO / 'src')
    if src not in sys.path:
        sys.path.insert(0, src)


def lake_build(targets: list[str], timeout: int = 1800) -> tuple[bool, str]:
    p = subprocess.run(['lake', 'build', *targets], cwd=LEAN, capture_output=True, text=True, timeout=timeout)
    return p.returncode == 0, p.stdout + p.stderr


def run_model(lines: list[str], timeout: int = 600) -> list[list[str]]:
    """pipe command lines into the native Lean driver; returns one block of output lines per command"""
    data = '\n'.join(lines) + '\n'
    p = subprocess.run([str(DRIVER)], input=data, capture_output=True, text=True, timeout=timeout)
    if p.returncode != 0:
        raise RuntimeError(f'model driver failed: rc={p.returncode} {p.stderr[:500]}')
    blocks: list[list[str]] = []
    cur: list[str] = []
    for ln in p.stdout.split('\n'):
        if ln == '.':
            blocks.append(cur)
            cur = []
        elif ln:
            cur.append(ln)
    n_cmds = sum(1 for ln in lines if ln.strip() and not ln.startswith('#'))
    if len(blocks) != n_cmds:
        raise RuntimeError(f'model driver answered {len(blocks)} blocks for {n_cmds} commands')
    return blocks


def scripted_k(seed: int, n_ns: int, dt_ns: int) -> int:
    return (seed * 1000003 + (n_ns // 1000) * 7919 + (dt_ns // 1000) * 104729) % 1001


def scripted_draw(seed: int, a_ns: int, b_ns: int, n_ns: int, dt_ns: int) -> int:
    """the deterministic replacement of random.uniform; identical to `scriptedDraw` in Driver.lean"""
    k = scripted_k(seed, n_ns, dt_ns)
    return a_ns + (((b_ns - a_ns) * k // 1000) // 1000) * 1000


class ScriptedUniform:
    """Replacement for `random.uniform` inside eascheduler.producers.prod_operation.
    The draw is a function of the arguments and of the caller's (next_dt, dt)."""

    def __init__(self, seed: int, epoch_ns_of) -> None:
        self.seed = seed
        self.ns_of = epoch_ns_of
        self.calls = 0

    def __call__(self, a: float, b: float) -> float:
        self.calls += 1
        fr = sys._getframe(1)
        loc = fr.f_locals
        n = loc.get('next_dt')
        dt = loc.get('dt')
        n_ns = self.ns_of(n) if n is not None else 0
        dt_ns = self.ns_of(dt) if dt is not None else 0
        a_ns = round(a * 1e9)
        b_ns = round(b * 1e9)
        v = scripted_draw(self.seed, a_ns, b_ns, n_ns, dt_ns)
        # whenever truncates float seconds toward zero when it converts them to nanoseconds:
        # bias by a quarter nanosecond away from zero so that the integer value survives
        return (v + (0.25 if v > 0 else -0.25 if v < 0 else 0.0)) / 1e9


def exact_secs(ns: int) -> bool:
    """eascheduler keeps offsets / intervals / jitter bounds as float seconds and whenever converts float
    seconds to nanoseconds by truncation: only amounts that are binary fractions of a second (multiples of
    1/1024 s ... here: of 1/8 s) survive that for every base instant (see known finding F15)."""
    return ns % 125_000_000 == 0


def make_exact(ns: int) -> int:
    """the nearest multiple of 1/8 s (away from zero, never 0 unless ns is 0)"""
    if ns == 0 or exact_secs(ns):
        return ns
    q = 125_000_000
    return (abs(ns) // q + 1) * q * (1 if ns > 0 else -1)


def seed_from_env(default: int = 1) -> int:
    try:
        return int(os.environ.get('VERIF_SEED', default))
    except ValueError:
        return default


def write_json(path: Path, obj) -> None:
    path.parent.mkdir(parents=True, exist_ok=True)
    tmp = path.with_suffix(path.suffix + '.tmp')
    tmp.write_text(json.dumps(obj, indent=1, default=str))
    tmp.replace(path)
