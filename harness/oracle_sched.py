"""Independent executable oracles of the scheduler properties (C01, C02, C07, C08, C09, C10), evaluated on the
trace of the REAL code. They state the property text directly; they never consult the Lean model."""
from __future__ import annotations

import re
from collections import defaultdict

from trace import Group


class JobView:
    def __init__(self, h: int, kind: str, line: str) -> None:
        self.h, self.kind, self.line = h, kind, line
        self.created_ok = False
        self.anns: list[list] = []      # [ann_instant, nr|None, uses]
        self.execs: list[int] = []
        self.finished_at: int | None = None
        self.cancelled = False


def parse_create(op: str):
    t = op.split()
    h = int(t[1])
    key = None if t[2] == '-' else int(t[2])
    kind = t[3].lstrip('(')
    arg = None
    if kind in ('once', 'countdown'):
        arg = int(t[4].rstrip(')'))
    ef = [] if t[-2] == '-' else [int(x) for x in t[-2].split(',')]
    tf = [] if t[-1] == '-' else [int(x) for x in t[-1].split(',') if not x.startswith('p')]
    return h, key, kind, arg, ef, tf


def cb_fields(ln: str):
    t = ln.split()
    return t[1], int(t[2]), int(t[3]), t[4], (None if t[5] == '-' else int(t[5])), int(t[6])


def sched_oracle(groups: list[Group], executor: str) -> list[tuple[str, str]]:
    """-> list of (property id, description) for every violation visible in the trace"""
    v: list[tuple[str, str]] = []
    jobs: dict[int, JobView] = {}
    enabled = True
    disabled_since: int | None = None
    regs: dict[tuple[str, int], list[int]] = defaultdict(list)     # (kind, job) -> registered cb ids in order
    store_expected: dict[int, int] = {}                              # key -> job handle
    cd_secs: dict[int, int] = {}
    cd_armed: dict[int, int | None] = {}
    cd_touched_after_due: dict[int, bool] = {}
    prev_now = None

    for gi, g in enumerate(groups):
        op = g.ops[0]
        t = op.split()
        name = t[0]
        for h0, (st0, nr0) in g.state['jobs'].items():
            if str(nr0).startswith('API-MISMATCH'):
                v.append(('C07', f'group {gi}: next_run_datetime of job {h0} does not show the local time of its run time: {nr0}'))
                g.state['jobs'][h0] = (st0, '-')
        start_now = prev_now if prev_now is not None else g.now
        loop_ran = name == 'sleep' or 'yield' in g.ops[1:] or name == 'yield'

        # ---------------- bookkeeping from the operation itself
        if name == 'create':
            h, key, kind, arg, ef, tf = parse_create(op)
            jv = jobs[h] = JobView(h, kind, op)
            jv.created_ok = g.ret == 'ok'
            if kind == 'countdown':
                cd_secs[h] = arg
                cd_armed[h] = None
            if g.ret == 'ok':
                if kind == 'once':
                    jv.anns.append([start_now, arg, 0])
                elif kind == 'at':
                    # the first run time is announced before a callback can be registered: read it from the
                    # job's reported state right after the creation call
                    st0 = g.state['jobs'].get(h)
                    if st0 is not None and st0[1] != '-' and not any(e[0] == h for e in g.execs):
                        jv.anns.append([start_now, int(st0[1]), 0])
                if key is not None:
                    if key in store_expected:
                        v.append(('C07', f'group {gi}: store accepted duplicate id {key}'))
                    store_expected[key] = h
            else:
                if key is not None and key in store_expected and not g.ret.startswith('err'):
                    v.append(('C07', f'group {gi}: duplicate id {key} not rejected'))
                if kind == 'once' and arg >= start_now and 'ScheduledRunInThePast' in g.ret:
                    v.append(('C08', f'group {gi}: once() for the instant {arg}, which is not before the current instant '
                                     f'{start_now}, was rejected as lying in the past'))
        elif name == 'enable':
            en = t[1] != '0'
            if en != enabled:
                enabled = en
                disabled_since = None if en else start_now
        elif name in ('cbreg', 'cbrem') and g.ret == 'ok':
            k, h, c = t[1], int(t[2]), int(t[3])
            lst = regs[(k, h)]
            if name == 'cbreg':
                if c not in lst:
                    lst.append(c)
            elif c in lst:
                lst.remove(c)

        # ---------------- events of this group in trace order
        # announcements (observer callback 0) and executions
        for ln in g.cbs:
            k, c, h, st, nr, at = cb_fields(ln)
            if (st == 'running') != (nr is not None):
                v.append(('C07', f'group {gi}: callback saw status {st} with next_run {nr}'))
            if k == 'f' and st != 'finished':
                v.append(('C07', f'group {gi}: on_finished callback saw status {st}'))
            if c == 0 and h in jobs:
                if k == 'u':
                    jobs[h].anns.append([at, nr, 0])
                else:
                    if jobs[h].finished_at is not None:
                        v.append(('C07', f'group {gi}: on_finished of job {h} invoked twice'))
                    jobs[h].finished_at = at
        # every registered callback exactly once per observer event, same payload
        by_evt: dict[tuple, list[int]] = defaultdict(list)
        order: list[tuple] = []
        for ln in g.cbs:
            k, c, h, st, nr, at = cb_fields(ln)
            key2 = (k, h, st, nr, at)
            by_evt[key2].append(c)
        for key2, cs in by_evt.items():
            k, h = key2[0], key2[1]
            expected = regs.get((k, h), [])
            n0 = cs.count(0)
            if 0 in expected and n0:
                for c in set(expected) | set(cs):
                    want = n0 if c in expected else 0
                    if cs.count(c) != want:
                        v.append(('C07', f'group {gi}: callback {c} of job {h} invoked {cs.count(c)}x for {n0} '
                                          f'(re)scheduling(s) {key2}'))

        g_just: list[tuple[int, int, int]] = []
        for (h, at) in g.execs:
            jv = jobs.get(h)
            if jv is None:
                v.append(('C02', f'group {gi}: execution of unknown job {h}'))
                continue
            jv.execs.append(at)
            if not jv.created_ok:
                v.append(('C02', f'group {gi}: job {h} whose creation failed was executed at {at}'))
                continue
            if not enabled and disabled_since is not None and at >= disabled_since:
                v.append(('C02', f'group {gi}: job {h} executed at {at} while the scheduler is disabled'))
            if jv.cancelled:
                v.append(('C02', f'group {gi}: job {h} executed at {at} after cancel() returned'))
            # the announcement that justifies this execution: the last one made at or before `at`
            # whose value is not in the future; announcements made at the same instant may be reordered
            # with the execution (async executor), so any of them may be the justification.
            cands = [a for a in jv.anns if a[0] <= at]
            just = None
            if cands:
                last_before = [a for a in cands if a[0] < at]
                same = [a for a in cands if a[0] == at]
                pool = ([last_before[-1]] if last_before else []) + same
                for a in pool:
                    if a[1] is not None and a[1] <= at and a[2] == 0:
                        just = a
                        break
                if just is None:
                    for a in pool:
                        if a[1] is not None and a[1] <= at:
                            just = a
                            break
                if just is None:
                    nrs = [a[1] for a in pool]
                    if any(n is not None and n > at for n in nrs) and not any(n is None for n in nrs):
                        v.append(('C01', f'group {gi}: job {h} executed EARLY at {at}, announced next_run {nrs}'))
                    else:
                        v.append(('C02', f'group {gi}: job {h} executed at {at} while not scheduled (announced {nrs})'))
            elif jv.kind != 'at':
                v.append(('C02', f'group {gi}: job {h} executed at {at} without any announced run time'))
            if just is not None:
                just[2] += 1
                if just[2] > 1:
                    v.append(('C02', f'group {gi}: job {h} executed {just[2]}x for the run time {just[1]} announced at {just[0]}'))
                # on time: under `sleep` the loop keeps up, so a run time inside the slept window is met exactly
                if name == 'sleep' and just[1] > start_now and at != just[1]:
                    v.append(('C01', f'group {gi}: job {h} due {just[1]} executed late at {at} although the loop kept up'))
                g_just.append((at, just[1], h))

        # ---------------- C09: chronological order inside one wake-up (same instant)
        seq = g_just
        for (a1, n1, h1), (a2, n2, h2) in zip(seq, seq[1:]):
            if a1 == a2 and n1 > n2:
                v.append(('C09', f'group {gi}: at {a1} job {h1} (due {n1}) ran before job {h2} (due {n2})'))

        # ---------------- control operations
        if name in ('cancel', 'pause', 'resume', 'stop', 'reset', 'setcd') and int(t[1]) in jobs:
            h = int(t[1])
            jv = jobs[h]
            before = groups[gi - 1].state['jobs'].get(h) if gi else None
            was_finished = before is not None and before[0] == 'finished'
            if was_finished:
                if g.ret == 'ok':
                    v.append(('C07', f'group {gi}: {name} on finished job {h} did not raise'))
                after = g.state['jobs'].get(h)
                if after != before:
                    v.append(('C07', f'group {gi}: {name} on finished job {h} changed it: {before} -> {after}'))
            if name == 'cancel' and g.ret == 'ok':
                jv.cancelled = True
                for k2, hh in list(store_expected.items()):
                    if hh == h:
                        del store_expected[k2]
            if jv.kind == 'countdown' and g.ret == 'ok':
                due = cd_armed.get(h)
                if due is not None and due <= start_now and name in ('reset', 'stop', 'cancel'):
                    cd_touched_after_due[h] = True
                if name == 'setcd':
                    cd_secs[h] = int(t[2])
                elif name == 'reset':
                    cd_armed[h] = start_now + cd_secs[h]
                elif name in ('stop', 'cancel'):
                    cd_armed[h] = None

        # ---------------- C08: countdown / one-shot timing against the three-line reference model
        for (h, at) in g.execs:
            jv = jobs.get(h)
            if jv is None or not jv.created_ok:
                continue
            if jv.kind == 'countdown':
                due = cd_armed.get(h)
                if due is None:
                    v.append(('C08', f'group {gi}: countdown {h} fired at {at} without an armed reset'))
                else:
                    if at < due or (name == 'sleep' and due > start_now and at != due):
                        v.append(('C08', f'group {gi}: countdown {h} armed for {due} fired at {at}'))
                    cd_armed[h] = None
            elif jv.kind == 'once':
                m = re.match(r'create \d+ \S+ \(once (-?\d+)\)', jv.line)
                want = int(m.group(1))
                if len(jv.execs) > 1:
                    v.append(('C08', f'group {gi}: one-shot job {h} executed {len(jv.execs)} times'))
                if at < want or (name == 'sleep' and want > start_now and at != want):
                    v.append(('C08', f'group {gi}: one-shot job {h} requested for {want} executed at {at}'))

        # ---------------- state after the group
        for h, (st, nr) in g.state['jobs'].items():
            if (st == 'running') != (nr != '-'):
                v.append(('C07', f'group {gi}: job {h} status {st} but next_run {nr}'))
            if st == 'finished':
                for k2, hh in list(store_expected.items()):
                    if hh == h:
                        del store_expected[k2]
                jv = jobs.get(h)
                if jv is not None and jv.kind == 'once' and jv.created_ok and not jv.execs and not jv.cancelled:
                    v.append(('C08', f'group {gi}: one-shot job {h} finished without having been executed'))
            if loop_ran and enabled and st == 'running' and nr != '-' and int(nr) <= g.now:
                v.append(('C01', f'group {gi}: job {h} is overdue after the loop ran: next_run {nr} <= now {g.now}'))
        # `last_run` is the instant of the most recent execution (none before the first one)
        for h, lr in g.state.get('last', {}).items():
            jv = jobs.get(h)
            if jv is None or not jv.created_ok:
                continue
            want_lr = str(jv.execs[-1]) if jv.execs else '-'
            if lr != want_lr:
                v.append(('C07', f'group {gi}: job {h} reports last_run {lr}, its most recent execution was at {want_lr}'))
        if loop_ran:
            for h, due in cd_armed.items():
                if due is not None and due <= g.now and enabled and not cd_touched_after_due.get(h):
                    v.append(('C08', f'group {gi}: countdown {h} armed for {due} did not fire (now {g.now})'))
        want_store = sorted(str(k) for k in store_expected)
        if sorted(g.state['store']) != want_store:
            v.append(('C07', f'group {gi}: store holds {g.state["store"]}, expected {want_store}'))
        cd_touched_after_due = {h: x for h, x in cd_touched_after_due.items() if cd_armed.get(h) is not None and cd_armed[h] <= g.now}
        prev_now = g.now

    # one-shot jobs that were due and never executed are caught by the overdue rule above
    return v


def exc_oracle(case_lines: list[str], groups: list[Group]) -> list[tuple[str, str]]:
    """C10: every failing invocation is reported to the handler exactly once"""
    v: list[tuple[str, str]] = []
    exec_fail: dict[int, set[int]] = {}
    cb_fail: set[int] = set()
    nexec: dict[int, int] = defaultdict(int)
    want_callable = want_cb = 0
    got_callable = got_cb = 0
    for g in groups:
        t = g.ops[0].split()
        if t[0] == 'create':
            h, key, kind, arg, ef, tf = parse_create(g.ops[0])
            exec_fail[h] = set(ef)
        if t[0] == 'cbfails':
            cb_fail.add(int(t[1]))
            continue
        for (h, at) in g.execs:
            if nexec[h] in exec_fail.get(h, ()):
                want_callable += 1
            nexec[h] += 1
        for ln in g.cbs:
            if int(ln.split()[2]) in cb_fail:
                want_cb += 1
        got_callable += g.excs.count('CallableError')
        got_cb += g.excs.count('CallbackError')
        if g.fatal:
            v.append(('C10', f'uncaught exception escaped the scheduler: {g.fatal}'))
    if want_callable != got_callable:
        v.append(('C10', f'{want_callable} failing callable invocations but {got_callable} handler reports'))
    if want_cb != got_cb:
        v.append(('C10', f'{want_cb} failing callback invocations but {got_cb} handler reports'))
    return v
