"""C18: sun triggers (partial by nature: the astronomy is astral's)."""
from __future__ import annotations

import datetime as dtm
import json
import os
import random
from concurrent.futures import ProcessPoolExecutor

from build import SUN_KINDS, SUN_PARAM, build_trigger
from common import CORPUS, NS_DAY, NS_HOUR, NS_MIN, NS_S, NS_US, run_model, use_repo_sources
from framework import Finding, Run
from tz import set_tz, zone_line

use_repo_sources()

UTC = dtm.timezone.utc
EPOCH = dtm.datetime(1970, 1, 1, tzinfo=UTC)


def ns_of_dt(d: dtm.datetime) -> int:
    x = d - EPOCH
    return (x.days * 86400 + x.seconds) * NS_S + x.microseconds * NS_US


def dt_of_ns(ns: int) -> dtm.datetime:
    return EPOCH + dtm.timedelta(microseconds=ns // 1000)


DEF_ELEV = {0: -6.0, 1: -0.833, 3: -0.833, 4: -6.0}
RISING = {0: True, 1: True, 3: False, 4: False}


def sun_case(args):
    seed, tier = args
    fixed = seed if isinstance(seed, dict) else None
    if fixed:
        seed = fixed['seed']
    rnd = random.Random(seed)
    import eascheduler.producers.prod_sun as ps
    from astral import sun
    from vclock import instant_of_ns, ns_of_instant
    from tz import SHAPE_ZONES, transitions
    tzname = rnd.choice(['UTC', 'UTC'] + SHAPE_ZONES)
    set_tz(tzname)
    lat = rnd.choice([rnd.uniform(-58, 58), rnd.uniform(-58, 58), rnd.uniform(60, 75), rnd.uniform(-75, -60), 0.0, 41.88, 23.8, 69.65])
    lon = rnd.choice([rnd.uniform(-180, 180), rnd.uniform(-120, 120), -87.63, 90.4, 178.0, -179.0, 13.4, 0.0])
    kind = rnd.choice([0, 1, 1, 2, 3, 3, 4, 10, 11])
    if fixed:
        lat, lon, kind = fixed['lat'], fixed['lon'], fixed['kind']
    if kind >= 10:
        e = rnd.choice([-3.0, 0.0, 5.0, 10.0, 20.0])
        SUN_PARAM[kind] = ('sun_elevation', e, 'rising' if kind == 10 else 'setting')
    ps.set_location(lat, lon)       # (the cache is NOT cleared by the harness: that is set_location's own job)
    trig = build_trigger(('sun', kind, None))
    p = trig._producer
    year = rnd.randint(2020, 2030)
    start = ns_of_dt(dtm.datetime(year, rnd.randint(1, 12), rnd.randint(1, 28), rnd.randint(0, 23), rnd.randint(0, 59), tzinfo=UTC))
    tr = [x for x in transitions(tzname, 1_577_836_800, 1_924_992_000) if abs(x[2] - x[1]) <= 7200]
    if tr and rnd.random() < 0.7:
        # start a few days before a clock change of the system zone
        start = (rnd.choice(tr)[0] - rnd.randint(2, 6) * 86400 + rnd.randint(0, 86399)) * NS_S
    if fixed:
        start = fixed['start']
    steps = 14 if tier == 'quick' else 40
    queries, impl = [], []
    dt = start
    for _ in range(steps):
        try:
            r = p.get_next(instant_of_ns(dt))
            res = f'ok {ns_of_instant(r)}'
        except Exception as e:  # noqa: BLE001
            res = f'err {type(e).__name__}'
        queries.append(dt)
        impl.append(res)
        if not res.startswith('ok'):
            break
        dt = int(res.split()[1])
    # ephemeris as the producer's own lookup function reports it, for every UTC date the model may touch
    d0 = start // NS_DAY - 1
    d1 = (max([dt] + queries)) // NS_DAY + 370 + 2
    eph = []
    for d in range(d0, min(d1, d0 + 480)):
        date = (EPOCH + dtm.timedelta(days=d)).date()
        try:
            v = p.func(ps.OBSERVER, date)
            eph.append((d, ns_of_dt(v)))
        except ValueError:
            eph.append((d, None))
    # astronomical validation of every returned instant (astral is the reference)
    astro = []
    for res in impl:
        if not res.startswith('ok'):
            continue
        t = dt_of_ns(int(res.split()[1]))
        el = [sun.elevation(ps.OBSERVER, t + dtm.timedelta(seconds=s), with_refraction=False) for s in (-300, 0, 300)]
        el_r = sun.elevation(ps.OBSERVER, t, with_refraction=True)
        astro.append((el[0], el[1], el[2], el_r))
    # the configured location changes (same coordinates, other elevation of the observer): answers must be the ones
    # a fresh computation gives, not those cached for the old location
    relocate = []
    ps.set_location(lat, lon, 2500.0)
    for q in queries[:3]:
        try:
            a = f'ok {ns_of_instant(p.get_next(instant_of_ns(q)))}'
        except Exception as e:  # noqa: BLE001
            a = f'err {type(e).__name__}'
        saved = dict(ps.SUN_CACHE)
        ps.SUN_CACHE.clear()
        try:
            b = f'ok {ns_of_instant(p.get_next(instant_of_ns(q)))}'
        except Exception as e:  # noqa: BLE001
            b = f'err {type(e).__name__}'
        ps.SUN_CACHE.clear()
        ps.SUN_CACHE.update(saved)
        relocate.append((q, a, b))
    # ... and changes once more, to another place (an observer object may get the address of an earlier one)
    lat3 = max(-58.0, min(58.0, lat * 0.5 + 7.0)) if abs(lat) < 59 else lat
    ps.set_location(lat3, ((lon + 180.0 - 11.0) % 360.0) - 180.0)
    for q in queries[:3]:
        try:
            a = f'ok {ns_of_instant(p.get_next(instant_of_ns(q)))}'
        except Exception as e:  # noqa: BLE001
            a = f'err {type(e).__name__}'
        saved = dict(ps.SUN_CACHE)
        ps.SUN_CACHE.clear()
        try:
            b = f'ok {ns_of_instant(p.get_next(instant_of_ns(q)))}'
        except Exception as e:  # noqa: BLE001
            b = f'err {type(e).__name__}'
        ps.SUN_CACHE.clear()
        ps.SUN_CACHE.update(saved)
        relocate.append((q, a, b))
    param = SUN_PARAM.get(kind)
    return {'tz': tzname, 'relocate': relocate,'seed': seed, 'lat': lat, 'lon': lon, 'kind': kind, 'param': param, 'queries': queries, 'impl': impl,
            'eph': eph, 'astro': astro}


class SunProp:
    component = 'sun'
    pid = 'C18'
    module = 'EaModel.Properties.C18'
    assumptions = ['astral 3.2 is trusted for the astronomy: the ephemeris is an input of the model (what the lookup function of the producer '
                   'lookup function returns per UTC date), and astral.sun.elevation is the reference for the validation',
                   'the elevation of the observer above sea level is not varied']

    def __init__(self, theorems: list[str]) -> None:
        self.theorems = theorems

    def f9(self, c: dict, times: list[int]) -> bool:
        """signature of known finding F9: an event within 75 min of 00:00 UTC is involved, or the location is near the
        date line (|longitude| >= 150), where the per-UTC-date lookup returns the event of a neighbouring date"""
        if abs(c['lon']) >= 150:
            return True
        for t in times:
            tod = t % NS_DAY
            if tod < 75 * NS_MIN or tod > NS_DAY - 75 * NS_MIN:
                return True
        # also events of the ephemeris around the reported instants
        lo, hi = min(times) - 2 * NS_DAY, max(times) + 2 * NS_DAY
        for _, v in c['eph']:
            if v is not None and lo <= v <= hi:
                tod = v % NS_DAY
                if tod < 75 * NS_MIN or tod > NS_DAY - 75 * NS_MIN:
                    return True
        return False

    def check_case(self, run: Run, c: dict) -> None:
        kind = c['kind']
        run.evaluations += len(c['queries'])
        run.nontrivial.add((round(c['lat'], 3), round(c['lon'], 3), kind, c['queries'][0]))
        st = run.stats
        st[f'kind_{kind}'] = st.get(f'kind_{kind}', 0) + 1
        for r in c['impl']:
            k = 'res_' + (r.split()[1] if r.startswith('err') else 'ok')
            st[k] = st.get(k, 0) + 1
        where = f'[lat {c["lat"]:.3f} lon {c["lon"]:.3f} kind {SUN_KINDS.get(kind, c["param"])}]'
        rep = {'component': 'sun', **{k: c[k] for k in ('seed', 'lat', 'lon', 'kind', 'param', 'queries')}, 'start': c['queries'][0], 'tz': c.get('tz')}
        oks = [int(r.split()[1]) for r in c['impl'] if r.startswith('ok')]
        # ---- the model's answers first: a failure only counts as the KNOWN finding F9 when the model (which encodes the
        # per-UTC-date lookup, theorem sun_midnight_fires_twice) predicts exactly the same answers
        lines = [zone_line(c.get('tz', 'UTC')), 'loc 1', 'ephclear']
        eph = c['eph']
        for i in range(0, len(eph), 60):
            lines.append(f'eph {kind} ' + ' '.join(f'{d} {"-" if v is None else v}' for d, v in eph[i:i + 60]))
        lines.append(f'prod 1 (sun {kind} -)')
        lines += [f'next 1 {q}' for q in c['queries']]
        blocks = run_model(lines)
        model = [b[0] if b else '' for b in blocks[-len(c['queries']):]]
        agrees = model == c['impl']
        f9 = (lambda times: self.f9(c, times)) if agrees else (lambda times: False)
        # ---- oracle 1: the sun really is where the trigger says (validation against astral)
        for t, (e0, e1, e2, er) in zip(oks, c['astro']):
            msg = None
            if kind in DEF_ELEV:
                if abs(e1 - DEF_ELEV[kind]) > 0.08:
                    msg = f'at the returned instant {t} the sun is at {e1:.3f} deg, the event is defined by {DEF_ELEV[kind]} deg'
                elif (e2 > e0) != RISING[kind]:
                    msg = f'at the returned instant {t} the sun moves in the wrong direction ({e0:.3f} -> {e2:.3f})'
            elif kind == 2:
                if not (e1 >= e0 - 0.02 and e1 >= e2 - 0.02):
                    msg = f'the returned noon {t} is not the culmination ({e0:.3f}, {e1:.3f}, {e2:.3f})'
            else:
                want = c['param'][1]
                if min(abs(e1 - want), abs(er - want)) > 0.15:
                    msg = f'at the returned instant {t} the sun is at {e1:.3f} ({er:.3f} refracted) deg, wanted {want} deg'
                elif (e2 > e0) != (c['param'][2] == 'rising'):
                    msg = f'at the returned instant {t} the sun moves in the wrong direction ({e0:.3f} -> {e2:.3f})'
            if msg:
                run.findings.append(Finding('oracle', f'{where} {msg}', rep, 'F9' if f9([t]) else None))
                break
        # ---- oracle 2: one occurrence per solar day
        # an elevation target is reached on every day of the year only where the noon sun always climbs above it and the
        # midnight sun always sinks below it (|lat| + 23.44 + |margin|): elsewhere days without the event are genuine
        every_day = True
        if c['param'] is not None:
            e = c['param'][1]
            every_day = abs(c['lat']) < 65.5 - e and abs(c['lat']) < 65.5 + e
        if abs(c['lat']) < 60 and every_day:
            for a, b in zip(oks, oks[1:]):
                gap = (b - a) / NS_HOUR
                if not 23.5 <= gap <= 24.5:
                    run.findings.append(Finding('oracle', f'{where} successive occurrences {a} and {b} are {gap:.2f} h apart',
                                                rep, 'F9' if f9([a, b]) else None))
                    break
            for q, r in zip(c['queries'], c['impl']):
                if r.startswith('err'):
                    run.findings.append(Finding('oracle', f'{where} get_next({q}) ended with {r} although the event occurs every day',
                                                rep, 'F9' if f9([q]) else None))
        for q, a, b in c.get('relocate', []):
            if a != b:
                run.findings.append(Finding('oracle', f'{where} after set_location(...) was called again (another observer elevation, then another place) get_next({q}) '
                                                      f'returns {a} but a fresh computation for the configured location gives {b}', rep))
                break
        for q, r in zip(c['queries'], c['impl']):
            if r.startswith('ok') and int(r.split()[1]) <= q:
                run.findings.append(Finding('oracle', f'{where} get_next({q}) returned {r}: not later', rep))
        # ---- correspondence
        run.traces_validated += 1
        for q, a, b in zip(c['queries'], c['impl'], model):
            if a != b and not (a.startswith('err') and b.startswith('err') and {a, b} <= {'err ValueError', 'err InfiniteLoopDetectedError'} and False):
                run.findings.append(Finding('correspondence', f'{where} sun model and code differ for get_next({q}): code {a} / model {b}',
                                            {**rep, 'broken': 'correspondence sun'}))
                break
        run.sample({'lat': c['lat'], 'lon': c['lon'], 'kind': kind, 'chain': c['impl'][:4]})

    def run_T(self, run: Run) -> None:
        n = {'quick': 300, 'thorough': 6000}[run.tier]
        run.rule = ('(location on the globe incl. polar regions and the date line, sun event kind incl. elevation triggers, start '
                    'instant in 2020-2030) followed for 14 (quick) / 40 occurrences; distinct = distinct (location, kind, start)')
        base = run.seed * 1_000_003 + 18 * 7919
        cdir = CORPUS / 'sun'
        seeds = [base + i for i in range(n)]
        if cdir.is_dir():
            for f in sorted(cdir.glob('*.json')):
                seeds.insert(0, json.loads(f.read_text()))
        with ProcessPoolExecutor(max_workers=min(8 if run.tier == 'quick' else 16, os.cpu_count() or 4)) as ex:
            for c in ex.map(sun_case, [(s, run.tier) for s in seeds], chunksize=2):
                self.check_case(run, c)

    def replay(self, run: Run, obj: dict) -> None:
        self.check_case(run, sun_case((obj if 'start' in obj else obj['seed'], run.tier)))
