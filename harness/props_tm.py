"""Task-manager properties C11 (sequential managers) and C12 (parallel managers)."""
from __future__ import annotations

import json
import random

from common import CORPUS, run_model
from framework import Finding, Run
from oracle_tm import tm_oracle
from tm_impl import TmImpl


def gen_tm_case(seed: int, kinds: list[str]) -> dict:
    rnd = random.Random(seed)
    kind = rnd.choice(kinds)
    args: list[str] = []
    if kind == 'limseq':
        args = [str(rnd.randint(1, 3)), rnd.choice(['skip', 'skip_first', 'skip_last'])]
    if kind == 'limpar':
        args = [str(rnd.randint(1, 3)), rnd.choice(['skip', 'cancel_first', 'cancel_last'])]
    lines: list[str] = []
    nc = 0
    submitted: list[int] = []

    def newc() -> int:
        nonlocal nc
        nc += 1
        return nc

    def fmt(ps):
        return ','.join(f'{a}:{b}' for a, b in ps) if ps else '-'
    for _ in range(rnd.randint(4, 30)):
        r = rnd.random()
        if r < 0.45 or not submitted:
            c = newc()
            submitted.append(c)
            lines.append(f'tm submit {c} {rnd.randint(1, 3)}')
        elif r < 0.8:
            c = rnd.choice(submitted[-6:])
            ins, lis = [], []
            if rnd.random() < 0.3:
                ins = [(newc(), rnd.randint(1, 3)) for _ in range(rnd.randint(1, 2))]
            if rnd.random() < 0.3:
                lis = [(newc(), rnd.randint(1, 3)) for _ in range(rnd.randint(1, 3))]
            submitted += [x for x, _ in ins + lis]
            lines.append(f'tm complete {c} {int(rnd.random() < 0.2)} {fmt(ins)} {fmt(lis)}')
        else:
            lines.append(f'tm cancel {rnd.choice(submitted[-6:])}')
    return {'component': 'tm', 'seed': seed, 'kind': kind, 'args': args, 'lines': lines}


def _tm_worker(args):
    seed, kinds = args
    import warnings
    warnings.simplefilter('ignore')
    case = gen_tm_case(seed, kinds)
    try:
        impl = TmImpl(case['kind'], case['args']).run(case['lines'])
        model = run_model([f'tm-reset {case["kind"]} ' + ' '.join(case['args'])] + case['lines'])[1:]
        return case, impl, model, None
    except BaseException as e:  # noqa: BLE001
        return case, None, None, f'{type(e).__name__}: {e}'


def eager_scenario(kind: str, args: list[str]) -> list[str]:
    """C12 on a loop with `asyncio.eager_task_factory` (Python 3.12): a coroutine that never suspends is finished when
    `create_task` returns. Oracle only (the ready-queue model describes the default task factory): a finished task
    frees its slot / is forgotten, and afterwards as many coroutines as the limit allows can start."""
    import asyncio
    import gc
    if not hasattr(asyncio, 'eager_task_factory'):
        return []
    out: list[str] = []

    async def main() -> None:
        loop = asyncio.get_running_loop()
        loop.set_exception_handler(lambda _l, _c: None)
        loop.set_task_factory(asyncio.eager_task_factory)
        mgr = TmImpl(kind, args)._make()
        started: list[int] = []

        async def quick() -> int:
            return 1

        async def boom() -> None:
            raise RuntimeError('at once')

        async def block(i: int, ev: asyncio.Event) -> None:
            started.append(i)
            await ev.wait()

        async def settle() -> None:
            for _ in range(20):
                await asyncio.sleep(0)
            gc.collect()
        mgr.create_task(quick())
        mgr.create_task(boom())
        mgr.create_task(quick())
        await settle()
        if len(mgr.tasks) != 0:
            out.append(f'{kind} {args}: {len(mgr.tasks)} finished task(s) are still tracked (coroutines that complete without '
                       f'suspending, eager task factory)')
        ev = asyncio.Event()
        n = int(args[0]) if kind == 'limpar' else 3
        for i in range(n):
            mgr.create_task(block(i, ev))
        await settle()
        if len(started) != n or len(mgr.tasks) != n:
            out.append(f'{kind} {args}: after three coroutines that finished at once, {len(started)} of {n} new coroutines were '
                       f'started and {len(mgr.tasks)} are tracked')
        ev.set()
        await settle()
        if len(mgr.tasks) != 0:
            out.append(f'{kind} {args}: {len(mgr.tasks)} task(s) still tracked after everything finished')
    asyncio.run(main())
    return out


class TmProp:
    component = 'tm'
    assumptions = [
        'asyncio is modelled by its FIFO ready queue: first step of a new task, done callbacks after completion, '
        'cancel() of a waiting task schedules its wake-up with CancelledError; validated by this run on a real loop',
        'each harness operation is followed by running the loop until it is idle; submissions from inside the running '
        'task and from a listener the task wakes as its last action cover the window before the done callback',
    ]

    def __init__(self, pid: str, theorems: list[str], kinds: list[str]) -> None:
        self.pid, self.theorems, self.kinds = pid, theorems, kinds
        self.module = f'EaModel.Properties.{pid}'

    def check_case(self, run: Run, case: dict, pre: tuple | None = None) -> None:
        import warnings
        warnings.simplefilter('ignore')
        impl = pre[0] if pre else TmImpl(case['kind'], case['args']).run(case['lines'])
        run.evaluations += 1
        n_ev = sum(len(b) for b in impl)
        if n_ev > len(impl) + 2:
            run.nontrivial.add((case['kind'], tuple(case['args']), tuple(ln.split()[1] for ln in case['lines']), n_ev))
        run.sample({'manager': case['kind'], 'args': case['args'], 'ops': case['lines'][:10], 'trace': impl[:6]})
        st = run.stats
        st['ops'] = st.get('ops', 0) + len(case['lines'])
        for b in impl:
            for ln in b:
                k = 'ev_' + ln.split()[0]
                st[k] = st.get(k, 0) + 1
        st['mgr_' + case['kind']] = st.get('mgr_' + case['kind'], 0) + 1
        for p, msg in tm_oracle(case['kind'], case['args'], case['lines'], impl):
            if p == self.pid:
                run.findings.append(Finding('oracle', f'{case["kind"]} {case["args"]}: {msg}', case))
        model = pre[1] if pre else run_model([f'tm-reset {case["kind"]} ' + ' '.join(case['args'])] + case['lines'])[1:]
        run.traces_validated += 1
        for i, (a, b) in enumerate(zip(impl, model)):
            if a != b:
                run.findings.append(Finding('correspondence',
                                            f'task manager model and code differ ({case["kind"]} {case["args"]}) at op {i} '
                                            f'{case["lines"][i]!r}: code {a} / model {b}',
                                            {**case, 'broken': 'correspondence tm/' + self.pid, 'op': i}))
                break

    def run_T(self, run: Run) -> None:
        n = {'quick': 500, 'thorough': 20000}[run.tier]
        run.rule = ('seeded operation lists on one real task manager (submissions from outside, from inside the running task '
                    'and from a listener woken by the finishing task; completions, failures, cancellations; all bounds 1-3 and '
                    'policies); non-trivial = more events than operations; distinct = distinct (manager, op kinds, #events)')
        cdir = CORPUS / 'tm'
        if cdir.is_dir():
            for f in sorted(cdir.glob('*.json')):
                d = json.loads(f.read_text())
                if d['kind'] in self.kinds:
                    self.check_case(run, d)
        base = run.seed * 1_000_003 + int(self.pid[1:]) * 7919
        if run.tier == 'thorough':
            # real loop and model in worker processes, judged here
            from concurrent.futures import ProcessPoolExecutor
            import os
            with ProcessPoolExecutor(max_workers=min(16, os.cpu_count() or 4)) as ex:
                for case, impl, model, err in ex.map(_tm_worker, [(base + i, self.kinds) for i in range(n)], chunksize=25):
                    if err:
                        run.findings.append(Finding('correspondence', f'adapter crashed on the real code: {err}',
                                                    {**case, 'broken': 'adapter'}))
                        continue
                    self.check_case(run, case, (impl, model))
        else:
            for i in range(n):
                self.check_case(run, gen_tm_case(base + i, self.kinds))
        if self.pid == 'C12':
            for kind, args in [('parallel', [])] + [('limpar', [str(k), pol]) for k in (1, 2, 3) for pol in ('skip', 'cancel_first', 'cancel_last')]:
                run.evaluations += 1
                run.stats['eager_factory_cases'] = run.stats.get('eager_factory_cases', 0) + 1
                for msg in eager_scenario(kind, args):
                    run.findings.append(Finding('oracle', msg, {'component': 'tm', 'kind': kind, 'args': args, 'lines': [], 'eager': True}))
        self.shrink(run)

    def shrink(self, run: Run) -> None:
        for f in run.findings:
            if f.kind != 'oracle' or f.replay.get('eager'):
                continue
            case = dict(f.replay)
            lines = list(case['lines'])

            def fails(ls):
                try:
                    impl = TmImpl(case['kind'], case['args']).run(ls)
                    return any(p == self.pid for p, _ in tm_oracle(case['kind'], case['args'], ls, impl))
                except BaseException:  # noqa: BLE001
                    return False
            i = 0
            budget = 120
            while i < len(lines) and budget > 0:
                cand = lines[:i] + lines[i + 1:]
                budget -= 1
                if cand and fails(cand):
                    lines = cand
                else:
                    i += 1
            f.replay = {**case, 'lines': lines, 'shrunk_from': len(case['lines'])}
            break

    def replay(self, run: Run, obj: dict) -> None:
        if obj.get('eager'):
            run.evaluations += 1
            for msg in eager_scenario(obj['kind'], obj['args']):
                run.findings.append(Finding('oracle', msg, obj))
            return
        self.check_case(run, obj)
