"""Adapter: executes scheduler operation lines on the real eascheduler under the virtual clock and emits the
same trace grammar as the Lean driver (`op ...` blocks)."""
from __future__ import annotations

import os

import asyncio
import datetime as dtm

from common import ScriptedUniform, use_repo_sources

use_repo_sources()

from build import build_trigger  # noqa: E402
from vclock import VLoop, drain, drain_tasks, instant_of_ns, ns_of_instant, run_virtual, vsleep  # noqa: E402


class HarnessError(SystemExit):
    """raised by the watchdog: asyncio re-raises SystemExit from callbacks and tasks (any other exception raised inside
    a loop callback is only logged and the loop goes on)"""


class TooSlow(HarnessError):
    """the history makes progress but takes too long to be judged on this machine"""


class Runaway(HarnessError):
    """the real scheduler starts one job again and again while the clock stands still"""


class NoHandle(Exception):
    pass


class CallableError(Exception):
    pass


class CallbackError(Exception):
    pass


class TriggerFailed(Exception):
    """raised by the failing trigger double; an exception object may be falsy (`__len__` of a collection-like error
    class, `__bool__`): error handling must test `is not None`, never truthiness"""
    def __bool__(self) -> bool:
        return not (self.args and self.args[0] == 'falsy')


# application code often raises a pre-built exception object (`raise NOT_READY`), and several jobs may await the same
# failed future: every failure has to reach the handler, also when the exception *object* is one it has seen before
SHARED_CALLABLE_ERROR = CallableError()
SHARED_CALLBACK_ERROR = CallbackError()


def _failing_producer_cls():
    from eascheduler.producers.base import DateTimeProducerBase

    class FailingProducer(DateTimeProducerBase):
        """test double: delegates to `inner`, raises on the listed call indices (0-based, per job copy)"""
        __slots__ = ('_inner', '_fail', '_from', '_n')

        def __init__(self, inner, fail, fail_from=None) -> None:
            super().__init__()
            self._inner = inner
            self._fail = frozenset(fail)
            self._from = fail_from
            self._n = 0

        def copy(self):
            return self.__class__(self._inner.copy(), self._fail, self._from)

        def get_next(self, dt):
            n = self._n
            self._n += 1
            if n in self._fail or (self._from is not None and n >= self._from):
                raise TriggerFailed('falsy' if n % 2 == 0 else 'plain')
            return self._inner.get_next(dt)

    return FailingProducer


class CbObj:
    """callbacks are registered as *bound methods* (a new object on every attribute access)"""

    def __init__(self, impl: 'SchedImpl', kind: str, cbid: int) -> None:
        self.impl, self.kind, self.cbid = impl, kind, cbid

    def __eq__(self, other):  # bound-method equality compares __self__ with ==
        return isinstance(other, CbObj) and (self.kind, self.cbid) == (other.kind, other.cbid)

    def __hash__(self):
        return hash((self.kind, self.cbid))

    def call(self, job) -> None:
        impl = self.impl
        h = impl.handle_of.get(id(job), -1)
        nr = job.next_run
        impl.out.append(f'cb {self.kind} {self.cbid} {h} {job.status.value} '
                        f'{"-" if nr is None else ns_of_instant(nr) - impl.base} {impl.loop.now_ns - impl.base}')
        if self.cbid in impl.cb_fail:
            raise (SHARED_CALLBACK_ERROR.with_traceback(None) if self.cbid % 2 == 0 else CallbackError())


def parse_csv(s: str) -> list[int]:
    return [] if s == '-' else [int(x) for x in s.split(',') if x and not x.startswith('p')]


def parse_perm(s: str) -> int | None:
    """`p<k>` in a trigger failure list: every call with index >= k raises"""
    ks = [int(x[1:]) for x in s.split(',') if x.startswith('p')]
    return min(ks) if ks else None


class SchedImpl:
    def __init__(self, executor: str, epoch_ns: int, specs: dict, seed: int = 0, tz: str = 'UTC') -> None:
        """`specs`: job handle -> python tuple of the producer for `at` jobs (the op line carries the S-expr)"""
        self.executor = executor
        self.seed = seed
        self.tz = tz
        self.skew = None
        self.epoch_ns = epoch_ns
        self.base = 0                 # trace instants are absolute nanoseconds
        self.specs = specs
        self.out: list[str] = []
        self.controls: dict[int, object] = {}
        self.handle_of: dict[int, int] = {}
        self.auto_key: dict[object, int] = {}
        self.cb_fail: set[int] = set()
        self.exec_count: dict[int, int] = {}
        self.same_instant: list = [None, 0]
        self.op_index = 0

    # ---- callables
    def _mk_callable(self, h: int, exec_fail: list[int]):
        impl = self

        def body() -> None:
            n = impl.exec_count.get(h, 0)
            impl.exec_count[h] = n + 1
            impl.out.append(f'exec {h} {impl.loop.now_ns - impl.base}')
            # a job is started at most once per instant (every reschedule lies strictly in the future): a job that is
            # started again and again while the clock stands still would fill the memory long before the watchdog ends it
            key = (h, impl.loop.now_ns)
            if impl.same_instant[0] == key:
                impl.same_instant[1] += 1
                if impl.same_instant[1] > 200:
                    raise Runaway(f'job {h} was started more than 200 times at the instant {impl.loop.now_ns} '
                                  f'(the clock did not move in between)')
            else:
                impl.same_instant = [key, 1]
            sp = impl.spawn.get(h)
            if sp is not None and sp[0] == n:
                # re-entrant use of the API: the (synchronous) callable of a job creates another job while the scheduler
                # is in the middle of a wake-up
                _, h2, t2 = sp
                c2 = impl.b_plain.once(instant_of_ns(t2 + impl.base), impl._mk_callable(h2, []))
                impl.controls[h2] = c2
                impl.handle_of[id(c2._job)] = h2
                impl.out.append(f'spawned {h2} {t2}')
            if n in exec_fail:
                raise (SHARED_CALLABLE_ERROR.with_traceback(None) if h % 2 == 0 else CallableError())

        if self.executor == 'sync':
            return body

        async def coro() -> None:
            body()
        if h % 2:
            return coro

        # a plain function that returns an awaitable is a valid `Callable[..., Awaitable]` too: it fails
        # when it is *called*, not when the awaitable is awaited
        async def nothing() -> None:
            return None

        def fn():
            body()
            return nothing()
        return fn

    def _handler(self, e: Exception) -> None:
        self.out.append(f'exc {type(e).__name__}')

    def _reconfigure_handler(self) -> None:
        """the application configures the exception handler again (another function object): from now on every failure
        goes to the new one, also failures of jobs that were created before"""
        from eascheduler.errors import handler as eh
        self.handler_gen = getattr(self, 'handler_gen', 0) + 1
        gen = self.handler_gen

        def handler(e: Exception, gen=gen) -> None:
            if gen != self.handler_gen:
                self.out.append(f'exc STALE-HANDLER-{type(e).__name__}')
            else:
                self._handler(e)
        eh.set_exception_handler(handler)

    def _nr(self, c) -> str:
        d = c.next_run_datetime
        if d is None:
            return '-'
        if self.tz != 'UTC':
            # a naive local datetime is ambiguous in a repeated hour: read the instant itself, and check that the
            # public API shows the wall clock reading of that instant in the system zone (independent conversion)
            ns = ns_of_instant(c._job.next_run)
            from zoneinfo import ZoneInfo
            want = (dtm.datetime(1970, 1, 1, tzinfo=dtm.timezone.utc) + dtm.timedelta(microseconds=ns // 1000)) \
                .astimezone(ZoneInfo(self.tz)).replace(tzinfo=None)
            if d != want:
                return f'API-MISMATCH:{d.isoformat()}!={want.isoformat()}'
            return str(ns - self.base)
        # TZ is UTC: the naive local datetime of the public API is UTC
        us = (d - dtm.datetime(1970, 1, 1)) // dtm.timedelta(microseconds=1)
        return str(us * 1000 - self.base)

    def _lr(self, c) -> str:
        """`last_run_datetime` of the public API, as an instant (same conversion and cross-check as `_nr`)"""
        d = c.last_run_datetime
        if d is None:
            return '-'
        ns = ns_of_instant(c._job.last_run)
        if self.tz != 'UTC':
            from zoneinfo import ZoneInfo
            want = (dtm.datetime(1970, 1, 1, tzinfo=dtm.timezone.utc) + dtm.timedelta(microseconds=ns // 1000)) \
                .astimezone(ZoneInfo(self.tz)).replace(tzinfo=None)
        else:
            want = dtm.datetime(1970, 1, 1) + dtm.timedelta(microseconds=ns // 1000)
        if d != want:
            return f'API-MISMATCH:{d.isoformat()}!={want.isoformat()}'
        return str(ns - self.base)

    def _state(self) -> list[str]:
        lines = []
        for h, c in self.controls.items():
            lines.append(f'st {h} {c.status.value} {self._nr(c)} {self._lr(c)}')
        keys = []
        for k, _ in self.store.items():
            keys.append(self.auto_key.get(k, k))
        assert len(keys) == len(self.store)
        lines.append('store' + ''.join(f' {k}' for k in sorted(keys)))
        lines.append(f'now {self.loop.now_ns - self.base}')
        return lines

    async def _run(self, loop: VLoop, lines: list[str]) -> list[list[str]]:
        from eascheduler.builder import JobBuilder
        from eascheduler.builder.triggers import TriggerObject
        from eascheduler.errors import handler as eh
        from eascheduler.executor import AsyncExecutor, SyncExecutor
        from eascheduler.job_stores.memory import InMemoryStore
        from eascheduler.schedulers.async_scheduler import AsyncScheduler
        from whenever import TimeDelta

        self.loop = loop
        old_handler = eh._EXCEPTION_HANDLER
        eh.set_exception_handler(self._handler)
        import eascheduler.producers.prod_operation as po
        old_uniform = po.uniform
        po.uniform = ScriptedUniform(self.seed, ns_of_instant)
        FailingProducer = _failing_producer_cls()
        try:
            sched = AsyncScheduler()
            self.sched = sched
            self.store = InMemoryStore()
            ex = SyncExecutor if self.executor == 'sync' else AsyncExecutor
            b_store = JobBuilder(sched, ex, self.store)
            b_plain = JobBuilder(sched, ex)
            self.b_plain = b_plain
            self.spawn = {}
            cbs: dict[tuple[str, int], CbObj] = {}
            blocks = []
            for li, line in enumerate(lines):
                self.op_index = li
                tok = line.split()
                # `op!`: issued directly after the previous operation, before the loop gets to run anything
                assert tok[0] in ('op', 'op!')
                tight_next = li + 1 < len(lines) and lines[li + 1].startswith('op! ')
                op = tok[1]
                self.out = []
                ret = 'ret ok'
                try:
                    if op == 'create':
                        h = int(tok[2])
                        key = None if tok[3] == '-' else int(tok[3])
                        ef, tf = parse_csv(tok[-2]), parse_csv(tok[-1])
                        kind = tok[4].lstrip('(')
                        builder = b_plain if key is None else b_store
                        kw = {}
                        if key is not None and key < 1000:
                            kw['job_id'] = key      # keys >= 1000 stand for the default id of the job
                        fn = self._mk_callable(h, ef)
                        if kind == 'once':
                            t = int(tok[5].rstrip(')'))
                            when = instant_of_ns(t + self.base)
                            # the same instant said in the ways the API accepts: Instant, aware datetime (UTC / another
                            # fixed offset), SystemDateTime
                            variant = (h + self.seed) % 4 if (t + self.base) % 1000 == 0 else 0
                            if variant == 1:
                                when = when.py_datetime()
                            elif variant == 2:
                                when = when.to_system_tz()
                            elif variant == 3:
                                when = when.py_datetime().astimezone(dtm.timezone(dtm.timedelta(hours=5, minutes=30)))
                            c = builder.once(when, fn, **kw)
                        elif kind == 'countdown':
                            secs = int(tok[5].rstrip(')'))
                            c = builder.countdown(TimeDelta(nanoseconds=secs), fn, **kw)
                        else:
                            trig = build_trigger(self.specs[h])
                            perm = parse_perm(tok[-1])
                            if tf or perm is not None:
                                trig = TriggerObject(FailingProducer(trig._producer, tf, perm))
                            c = builder.at(trig, fn, **kw)
                        self.controls[h] = c
                        self.handle_of[id(c._job)] = h
                        if key is not None and key >= 1000:
                            self.auto_key[c.id] = key
                        if (h + self.seed) % 2 == 0:
                            self._reconfigure_handler()
                    elif op in ('cancel', 'pause', 'resume', 'stop', 'reset'):
                        c = self.controls.get(int(tok[2]))
                        if c is None:
                            raise NoHandle()
                        m = getattr(c, op, None)
                        if m is None:
                            raise NotImplementedError()
                        m()
                    elif op == 'setcd':
                        c = self.controls.get(int(tok[2]))
                        if c is None:
                            raise NoHandle()
                        m = getattr(c, 'set_countdown', None)
                        if m is None:
                            raise NotImplementedError()
                        m(TimeDelta(nanoseconds=int(tok[3])).in_seconds())
                    elif op in ('cbreg', 'cbrem'):
                        kind, h, cbid = tok[2], int(tok[3]), int(tok[4])
                        if h not in self.controls:
                            raise NoHandle()
                        job = self.controls[h]._job
                        reg = job.on_update if kind == 'u' else job.on_finished
                        obj = cbs.setdefault((kind, cbid), CbObj(self, kind, cbid))
                        # `obj.call` is a new bound-method object on every access (equal, not identical),
                        # exactly what application code passes when it writes `self.method` twice
                        (reg.register if op == 'cbreg' else reg.remove)(obj.call)
                    elif op == 'spawn':
                        # `spawn h k h2 t2`: the k-th execution of job h creates the one-shot job h2 for the instant t2
                        self.spawn[int(tok[2])] = (int(tok[3]), int(tok[4]), int(tok[5]))
                    elif op == 'cbfails':
                        self.cb_fail.add(int(tok[2]))
                    elif op == 'enable':
                        sched.set_enabled(tok[2] != '0')
                    elif op == 'advance':
                        loop.set_rel(loop.vns + int(tok[2]))
                    elif op == 'yield':
                        await drain(loop)
                    elif op == 'sleep':
                        await vsleep(loop, int(tok[2]))
                    elif op == 'sleepl':
                        await vsleep(loop, int(tok[2]), int(tok[3]))
                    else:
                        raise HarnessError(f'unknown op {op}')
                except Exception as e:  # noqa: BLE001
                    name = type(e).__name__
                    if name in ('AttributeError', 'NotImplementedError'):
                        name = 'NotImplemented'
                    ret = f'ret err {name}'
                if op not in ('yield', 'sleep', 'sleepl', 'advance') and not tight_next:
                    # coroutines started by this operation begin in the next loop iteration, before any timer
                    await drain_tasks(loop)
                blocks.append([ret, *self.out, *self._state()])
            return blocks
        finally:
            eh.set_exception_handler(old_handler)
            po.uniform = old_uniform

    def run(self, lines: list[str]) -> list[list[str]]:
        import resource
        import signal
        import time as _time
        t0 = _time.time()
        rss0 = resource.getrusage(resource.RUSAGE_SELF).ru_maxrss      # kB
        budget = float(os.environ.get('VERIF_SCHED_WATCHDOG', '30'))

        last = [None, t0]

        def _alarm(*_a):
            # polled once per second. A history normally takes milliseconds (long recurring histories: seconds). The
            # scheduler is stopped when it makes no progress for `budget` seconds (the virtual clock stands still, no
            # callable is started, no operation completes), when it has allocated 1.5 GB, or - still making progress -
            # after 15 minutes (reported as too slow to judge, not as a failure)
            now = _time.time()
            cur = (getattr(getattr(self, 'loop', None), 'vns', None), sum(self.exec_count.values()), self.op_index)
            if cur != last[0]:
                last[0], last[1] = cur, now
            grown = resource.getrusage(resource.RUSAGE_SELF).ru_maxrss - rss0
            if now - last[1] > budget:
                raise HarnessError('the scheduler does not return (watchdog)')
            if grown > 1_500_000:
                raise HarnessError('the scheduler does not return and keeps allocating memory (watchdog)')
            if now - t0 > 900:
                raise TooSlow('history not finished after 15 minutes')
        old = signal.signal(signal.SIGALRM, _alarm)
        signal.setitimer(signal.ITIMER_REAL, 1.0, 1.0)
        try:
            # a third of the cases run with a loop clock that is ahead of the wall clock (timers fire early)
            skew = [0, 0, 250_000, 5_000_000][self.seed % 4] if self.skew is None else self.skew
            if any(ln.startswith('op sleepl ') for ln in lines):
                skew = 0          # late wake-ups and early-firing timers are separate scenarios
            return run_virtual(lambda loop: self._run(loop, lines), self.epoch_ns, skew)
        finally:
            signal.setitimer(signal.ITIMER_REAL, 0)
            signal.signal(signal.SIGALRM, old)
